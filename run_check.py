#!/venv/bin/python
"""Entry point: run_check.py <Cxx> [--tier quick|thorough] [--seed N] [--replay file]
Exit 0 = held on everything observed, 1 = VIOLATION (line printed), 2 = INCONCLUSIVE."""
import os, sys, json, argparse, importlib, time, traceback

HERE = os.path.dirname(os.path.abspath(__file__))
sys.path.insert(0, HERE)
sys.dont_write_bytecode = True
os.environ.setdefault('PYTHONDONTWRITEBYTECODE', '1')
os.environ.setdefault('PONYORM_PONY_VERIF', '1')

from vlib import common


def _deterministic_reexec():
    """Pony's entity instances hash by id(), so the iteration order of its internal sets of objects - and with it the
    order in which it processes objects - depends on memory addresses.  Address-space randomisation and string hash
    randomisation are switched off for every check process, so that a run (and the replay of a witness) is reproducible.
    Best effort: without `setarch` the check runs as it is."""
    if os.environ.get('VERIF_DETERMINISTIC') == '1': return
    import shutil, platform
    env = dict(os.environ, VERIF_DETERMINISTIC='1', PYTHONHASHSEED='0')
    exe = shutil.which('setarch')
    cmd = [sys.executable] + sys.argv
    if exe:
        import subprocess
        try: ok = subprocess.run([exe, platform.machine(), '-R', 'true'], capture_output=True, timeout=20).returncode == 0
        except Exception: ok = False
        if ok: cmd = [exe, platform.machine(), '-R'] + cmd
    try: os.execvpe(cmd[0], cmd, env)
    except OSError: os.environ['VERIF_DETERMINISTIC'] = '1'


def main():
    ap = argparse.ArgumentParser()
    ap.add_argument('pid')
    ap.add_argument('--tier', default=os.environ.get('VERIF_TIER', 'quick'), choices=['quick', 'thorough'])
    ap.add_argument('--seed', type=int, default=int(os.environ.get('VERIF_SEED', '0') or 0))
    ap.add_argument('--shard', default=None)
    ap.add_argument('--partial', default=None)
    ap.add_argument('--replay', default=None)
    a = ap.parse_args()

    mod = importlib.import_module('checks.' + a.pid)
    meta = mod.META
    level = meta['level']
    shims = meta.get('shims', ())

    if a.replay:
        common.setup_path(shims)
        ctx = common.Ctx(a.pid, level, a.tier, a.seed)
        with open(a.replay) as f: w = json.load(f)
        if hasattr(mod, 'replay'):
            try: mod.replay(ctx, w['witness'])
            finally: ctx.cleanup()
            n = ctx.counters.get('violations_seen', 0)
            print('replay: %d violation(s) reproduced' % n)
            for v in ctx.violations: print(json.dumps(v)[:2000])
            return 1 if n else 0
        print(json.dumps(w, indent=1)); return 0

    nshards = getattr(mod, 'SHARDS', {}).get(a.tier, 1)
    if a.shard is None:
        # also with a single shard: the worker is a subprocess under a wall-clock watchdog, so a hang (a deadlock in the
        # code under test, a stuck scheduler) ends as INCONCLUSIVE instead of never ending
        timeout = getattr(mod, 'SHARD_TIMEOUT', {}).get(a.tier, 1500)
        ctx = common.run_sharded(mod.__name__, a.pid, level, a.tier, a.seed, nshards, timeout)
        return ctx.finish(meta)

    shard, n = (0, 1) if a.shard is None else map(int, a.shard.split('/'))
    common.setup_path(shims)
    ctx = common.Ctx(a.pid, level, a.tier, a.seed, shard, n)
    try:
        mod.run(ctx)
    except Exception:
        ctx.inconclusive.append('check harness crashed: ' + traceback.format_exc()[-2500:])
    finally:
        ctx.cleanup()
    if a.partial:
        with open(a.partial + '.tmp', 'w') as f: json.dump(ctx.to_partial(), f)
        os.replace(a.partial + '.tmp', a.partial)
        return 0
    return ctx.finish(meta)


if __name__ == '__main__':
    _deterministic_reexec()
    sys.exit(main())
